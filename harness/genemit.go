package main

// Emission (C09): a real client with its reporting loop running against a UDP
// sink, while the meter's energy file is edited (rows appended, rewritten,
// duplicated with other values, reordered, malformed) and the client restarted.

import (
	"fmt"
	"os"
	"path/filepath"
	"strconv"
	"strings"
	"sync/atomic"
	"time"

	"github.com/glowlabs-org/gca-backend/client"
	"github.com/glowlabs-org/gca-backend/glow"
)

// runSilentServerScenario: the real client with its real loop, and one server that accepts every
// connection and then says nothing (the sync connection has no deadline, so every round that reaches it
// is held for as long as the server likes). The loop has to go on starting rounds: a failed sync is
// retried within four ticks (theorem c11_retry_after_failure). Observed: connections at the server.
func runSilentServerScenario(seed uint64, t *Trace) error {
	dev := detKey(seed, 1)
	sink := newUDPSink()
	defer sink.c.Close()
	ss := newScriptServer()
	defer ss.close()
	rel := make(chan struct{})
	ss.setHang(rel)
	srvKey := detKey(seed, 60)
	servers := map[glow.PublicKey]client.GCAServer{srvKey.Pub: {Location: myIP, HttpPort: 1, TcpPort: ss.port(), UdpPort: sink.port()}}
	dir := freshDir("silent")
	defer os.RemoveAll(dir)
	content := "timestamp,energy (mWh)\n"
	if err := writeClientDir(ClientDir{Dir: dir, Key: dev, GCAPub: detKey(seed, 1001).Pub, ShortID: 1, Servers: servers, Energy: &content}); err != nil {
		return err
	}
	t.Line("scenario silent-%d", seed)
	c, err := client.NewClient(dir)
	if err != nil {
		return err
	}
	conns := func() int { ss.mu.Lock(); defer ss.mu.Unlock(); return ss.conns }
	t0 := time.Now()
	for conns() < 3 && time.Since(t0) < 12*time.Second {
		time.Sleep(20 * time.Millisecond)
	}
	n := conns()
	close(rel)
	c.Close()
	obs := "ok"
	if n < 2 {
		obs = fmt.Sprintf("VIOLATION:%d sync round(s) reached the server in %v; the first one is still held, and no other was started", n, time.Since(t0).Round(time.Millisecond))
	}
	t.Count("loop.silent-server")
	t.Line("c11.check what=rounds-go-on-while-a-server-holds-one held=%d => %s", n, obs)
	t.DumpStats()
	return nil
}

func runEmitScenario(seed uint64, size int, t *Trace) error {
	if seed%5 == 2 {
		return runSilentServerScenario(seed, t)
	}
	r := &Rng{s: seed*61 + 23}
	dev := detKey(seed, 1)
	sink := newUDPSink()
	defer sink.c.Close()
	srvKey := detKey(seed, 60)
	servers := map[glow.PublicKey]client.GCAServer{srvKey.Pub: {Location: myIP, HttpPort: 1, TcpPort: closedPortOnce(), UdpPort: sink.port()}}
	g := int64(glow.GenesisTime)
	origin := uint32(0)
	dir := freshDir("emit")
	defer os.RemoveAll(dir)
	type row struct {
		ts int64
		v  string
	}
	var rows []row
	render := func() string {
		var sb strings.Builder
		sb.WriteString("timestamp,energy (mWh)\n")
		for _, x := range rows {
			sb.WriteString(fmt.Sprintf("%d,%s\n", x.ts, x.v))
		}
		return sb.String()
	}
	content := render()
	if err := writeClientDir(ClientDir{Dir: dir, Key: dev, GCAPub: detKey(seed, 1001).Pub, ShortID: 1, Servers: servers, HistoryOffset: origin, Energy: &content}); err != nil {
		return err
	}
	// a recent-sync marker keeps the loop from starting sync rounds right away
	os.WriteFile(filepath.Join(dir, client.LastSyncFile), []byte(strconv.FormatInt(time.Now().Unix(), 10)), 0644)
	c, err := client.NewClient(dir)
	if err != nil {
		return err
	}
	t.Line("scenario emit-%d", seed)
	t.Line("cl.hist.new origin=%d", origin)
	t.Line("cl.loop.start recs=")
	vals := []string{"500", "600", "4294967796", "30", "-700", "5", "abc", "1e3", "24", "2500000000"}
	slot := int64(1)
	for it := 0; it < size; it++ {
		switch r.pick([]int{40, 15, 15, 10, 10, 10}) {
		case 0: // append a row for a new slot
			slot += int64(1 + r.Intn(2))
			rows = append(rows, row{g + 300*slot + int64(r.Intn(300)), vals[r.Intn(len(vals))]})
		case 1: // rewrite the value of an existing row
			if len(rows) > 0 {
				rows[r.Intn(len(rows))].v = vals[r.Intn(len(vals))]
			}
		case 2: // duplicate a slot with another value
			if len(rows) > 0 {
				x := rows[r.Intn(len(rows))]
				rows = append(rows, row{x.ts + int64(r.Intn(3)), vals[r.Intn(len(vals))]})
			}
		case 3: // reorder
			if len(rows) > 1 {
				i, j := r.Intn(len(rows)), r.Intn(len(rows))
				rows[i], rows[j] = rows[j], rows[i]
			}
		case 4: // two new rows for one new slot with different values
			slot += 1
			rows = append(rows, row{g + 300*slot, vals[r.Intn(len(vals))]}, row{g + 300*slot + 10, vals[r.Intn(len(vals))]})
		case 5: // restart the client (start-up saves everything, sends nothing)
			c.Close()
			sink.take()
			c, err = client.NewClient(dir)
			if err != nil {
				t.Line("cl.restart => FAILED")
				return nil
			}
			recs, _ := c.VerifReadEnergyFile()
			t.Count("emit.restart")
			t.Line("cl.loop.start recs=%s", recList(recs))
			continue
		}
		content = render()
		// replace the file atomically (the loop reads it whole)
		tmp := filepath.Join(dir, "energy.tmp")
		os.WriteFile(tmp, []byte(content), 0644)
		os.Rename(tmp, filepath.Join(dir, client.EnergyFile))
		// wait until the reporting loop has started two more iterations (so one full iteration has
		// seen the new content), then let the datagrams arrive
		it0 := atomic.LoadInt64(&loopIters)
		for w := 0; w < 3000 && atomic.LoadInt64(&loopIters) < it0+2; w++ {
			time.Sleep(time.Millisecond)
		}
		sink.settle(10*time.Millisecond, 300*time.Millisecond)
		recs, _ := c.VerifReadEnergyFile()
		var sent []string
		for _, p := range sink.take() {
			rep, err := glow.DeserializeReport(p)
			if err != nil || !glow.Verify(dev.Pub, rep.SigningBytes(), rep.Signature) {
				sent = append(sent, "BAD")
				continue
			}
			sent = append(sent, fmt.Sprintf("%d.%d", rep.Timeslot, rep.PowerOutput))
		}
		t.Count("emit.iter")
		t.Count(fmt.Sprintf("emit.sent:%d", min(len(sent), 3)))
		t.Line("cl.loop.iter recs=%s => %s %s", recList(recs), strings.Join(sent, ","), histCanon(dir))
	}
	c.Close()
	t.DumpStats()
	return nil
}

var loopIters int64

func init() {
	client.VerifSetPoint("send-loop-iter", func() { atomic.AddInt64(&loopIters, 1) })
}

func recList(recs []client.EnergyRecord) string {
	var out []string
	for _, rc := range recs {
		out = append(out, fmt.Sprintf("%d.%d", rc.Timeslot, rc.Energy))
	}
	return strings.Join(out, ",")
}

func init() {
	commands["emitscenario"] = func(a []string) int {
		seed, _ := strconv.ParseUint(a[0], 10, 64)
		size, _ := strconv.Atoi(a[1])
		t := NewTrace(os.Stdout)
		if err := runEmitScenario(seed, size, t); err != nil {
			t.Line("# scenario error: %v", err)
			return 3
		}
		return 0
	}
	commands["emit"] = func(a []string) int {
		base, _ := strconv.ParseUint(a[0], 10, 64)
		n, _ := strconv.Atoi(a[1])
		size, _ := strconv.Atoi(a[2])
		f, err := os.Create(a[3])
		if err != nil {
			return 2
		}
		defer f.Close()
		c := runMany([]string{"emitscenario"}, base, n, 14, size, f)
		fmt.Printf("HARNESS scenarios=%d crashes=%d\n", n, c)
		return 0
	}
}
