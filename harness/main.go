package main

import (
	"fmt"
	"os"
	"os/exec"
	"strings"
	"time"
)

// selfExec runs this binary again with the given arguments, with a timeout,
// and returns exit code and combined output. Used for everything that may
// kill the process.
func selfExec(timeout time.Duration, args ...string) (int, string) {
	cmd := exec.Command(os.Args[0], args...)
	cmd.Env = os.Environ()
	var out strings.Builder
	cmd.Stdout = &out
	cmd.Stderr = &out
	if err := cmd.Start(); err != nil {
		return -1, err.Error()
	}
	done := make(chan error, 1)
	go func() { done <- cmd.Wait() }()
	select {
	case err := <-done:
		if err == nil {
			return 0, out.String()
		}
		if ee, ok := err.(*exec.ExitError); ok {
			return ee.ExitCode(), out.String()
		}
		return -1, out.String() + err.Error()
	case <-time.After(timeout):
		cmd.Process.Kill()
		<-done
		return -2, out.String() + "\n[timeout]"
	}
}

func main() {
	if len(os.Args) < 2 {
		fmt.Println("usage: harness <cmd> ...")
		os.Exit(2)
	}
	switch os.Args[1] {
	case "witness":
		os.Exit(runWitness(os.Args[2]))
	case "witnesses":
		os.Exit(cmdWitnesses(os.Args[2:]))
	default:
		if f, ok := commands[os.Args[1]]; ok {
			os.Exit(f(os.Args[2:]))
		}
		fmt.Println("unknown command", os.Args[1])
		os.Exit(2)
	}
}

var commands = map[string]func([]string) int{}

// cmdWitnesses runs the witnesses (all, or those serving the given property)
// each in its own child process and prints one line per witness:
//
//	W <id> ok|DEFECT|CRASH <detail>
func cmdWitnesses(args []string) int {
	prop := ""
	if len(args) > 0 {
		prop = args[0]
	}
	type res struct {
		id, line string
	}
	ch := make(chan res, len(witnesses))
	n := 0
	for _, w := range witnesses {
		if prop != "" && prop != "all" {
			found := false
			for _, p := range w.Props {
				if p == prop {
					found = true
				}
			}
			if !found {
				continue
			}
		}
		n++
		go func(w witness) {
			code, out := selfExec(60*time.Second, "witness", w.ID)
			status := "ok"
			detail := ""
			for _, l := range strings.Split(out, "\n") {
				if strings.HasPrefix(l, "WITNESS ") {
					detail = l
				}
			}
			if code == 1 && detail != "" {
				status = "DEFECT"
			} else if code != 0 {
				status = "CRASH"
				ls := strings.Split(strings.TrimSpace(out), "\n")
				for _, l := range ls {
					if strings.HasPrefix(l, "panic:") || strings.Contains(l, "[timeout]") {
						detail = l
						break
					}
				}
				if detail == "" && len(ls) > 0 {
					detail = ls[len(ls)-1]
				}
			}
			ch <- res{w.ID, fmt.Sprintf("W %s %s props=%s what=%q detail=%q", w.ID, status, strings.Join(w.Props, ","), w.What, detail)}
		}(w)
	}
	bad := 0
	lines := []string{}
	for i := 0; i < n; i++ {
		r := <-ch
		lines = append(lines, r.line)
		if !strings.Contains(r.line, " ok ") {
			bad++
		}
	}
	sortStrings(lines)
	for _, l := range lines {
		fmt.Println(l)
	}
	if bad > 0 {
		return 1
	}
	return 0
}

func sortStrings(a []string) {
	for i := 1; i < len(a); i++ {
		for j := i; j > 0 && a[j] < a[j-1]; j-- {
			a[j], a[j-1] = a[j-1], a[j]
		}
	}
}
