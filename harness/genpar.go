package main

// Parallel bursts against the real server (meant to be run from a binary built with -race):
// many goroutines submit datagrams (through the handler hook and through the real UDP socket),
// authorizations, authorized-server orders and read-only queries at the same instant.
//
// The server's own append-only logs give the order in which the state-changing operations took
// effect, so the burst is written to the trace as ONE sequential history: the reports in the order of
// equipment-reports.dat, the authorizations in the order of equipment-authorizations.dat, the server
// orders in the order of the in-memory list, then every operation that left no trace. The burst is
// built so that an operation which had no effect where it really ran has none at the end either
// (no rotation inside a burst, reporting devices are never re-authorized inside a burst, every churned
// id has its own key), so a mismatch of the state after the burst means that no sequential order of
// the submitted operations explains what the server did.

import (
	"encoding/binary"
	"fmt"
	"os"
	"strconv"
	"strings"
	"sync"
	"sync/atomic"
	"time"

	"github.com/glowlabs-org/gca-backend/glow"
	"github.com/glowlabs-org/gca-backend/server"
)

func runParScenario(seed uint64, size int, t *Trace) error {
	r := &Rng{s: seed*104729 + 17}
	s, err := NewSrv(fmt.Sprintf("par-%d", seed), seed, t)
	if err != nil {
		return err
	}
	defer func() {
		if s.E.S != nil {
			s.E.Stop()
		}
	}()
	start := uint32(r.Intn(3000))
	if err := s.Boot(start); err != nil {
		return err
	}
	gr := server.GCARegistration{GCAKey: s.E.GCA.Pub}
	if s.Register(s.E.GCA.Pub, glow.Sign(gr.SigningBytes(), s.E.Temp.Priv)) != "ok" {
		return fmt.Errorf("registration refused")
	}
	g := &srvGen{s: s, r: r, seed: seed, focus: "C13"}
	// reporting devices 1..3 (stable during bursts); churn ids 4..6 each with a key of its own
	nrep := 2 + r.Intn(2)
	var reps []devInfo
	for i := 0; i < nrep; i++ {
		k := detKey(seed, 10+i)
		ea := SignAuth(g.freshAuth(uint32(1+i), k), s.E.GCA.Priv)
		ea.Capacity = []uint64{1000, 1 << 40, 12345}[r.Intn(3)]
		ea = SignAuth(ea, s.E.GCA.Priv)
		if s.Authorize(ea, r.Chance(50)) == "new" {
			reps = append(reps, devInfo{uint32(1 + i), k, ea})
		}
	}
	if len(reps) == 0 {
		return fmt.Errorf("no reporting device")
	}
	churnKey := func(id uint32) Key { return detKey(seed, 40+int(id)) }
	nextSrv := 0
	var used [][]byte
	for burst := 0; burst < size; burst++ {
		if s.E.S == nil {
			break
		}
		now := glow.CurrentTimeslot()
		off := g.off()
		// ---- build the burst
		withRot := r.Chance(25)
		var dgrams [][]byte
		seenPrefix := map[string]bool{}
		addD := func(d []byte) {
			if withRot && len(d) >= 80 && binary.LittleEndian.Uint32(d[4:8]) >= off+4032 {
				// beyond the window before the rotation, inside it afterwards: the only reports whose fate depends
				// on which side of the rotation they fall WITHOUT leaving a trace in the log on one side
				return
			}
			if len(d) >= 80 {
				p := string(d[:80])
				if seenPrefix[p] && r.Chance(50) {
					return
				}
				// a second datagram with the same leading 80 bytes is only ever an exact copy
				for _, o := range dgrams {
					if len(o) >= 80 && string(o[:80]) == p && string(o) != string(d) {
						return
					}
				}
				seenPrefix[p] = true
			}
			dgrams = append(dgrams, d)
		}
		nd := 6 + r.Intn(20)
		for i := 0; i < nd; i++ {
			dv := reps[r.Intn(len(reps))]
			ts := int64(now) + int64(r.Intn(41)) - 20
			if r.Chance(10) {
				ts = int64(now) + []int64{-433, -432, 432, 433}[r.Intn(4)]
			}
			if r.Chance(10) {
				ts = int64(off) + []int64{-1, 0, 4031, 4032}[r.Intn(4)]
			}
			if ts < 0 {
				ts = 0
			}
			slots := uint32(ts)
			p := []uint64{2, 3, 500, 1350, 1351, 1 << 62, 1<<63 + 5, uint64(2 + r.Intn(50))}[r.Intn(8)]
			switch r.pick([]int{50, 15, 10, 8, 6, 6, 5}) {
			case 0:
				addD(MkReport(dv.id, slots, p, dv.key.Priv).Serialize())
			case 1: // several goroutines fight over one slot with different values
				base := uint32(int64(now) - int64(r.Intn(4)))
				for k := 0; k < 2+r.Intn(3); k++ {
					addD(MkReport(dv.id, base, p+uint64(k), dv.key.Priv).Serialize())
				}
			case 2: // exact copies
				d := MkReport(dv.id, slots, p, dv.key.Priv).Serialize()
				addD(d)
				addD(append([]byte(nil), d...))
			case 3: // replay from an earlier burst
				if len(used) > 0 {
					addD(append([]byte(nil), used[r.Intn(len(used))]...))
				}
			case 4: // wrong signer
				addD(MkReport(dv.id, slots, p, s.E.GCA.Priv).Serialize())
			case 5: // bit flip / short / sentinel
				d := MkReport(dv.id, slots, []uint64{0, 1, p}[r.Intn(3)], dv.key.Priv).Serialize()
				if r.Chance(50) {
					i := r.Intn(640)
					d[i/8] ^= 1 << uint(i%8)
				}
				if r.Chance(30) {
					d = d[:r.Intn(80)]
				}
				addD(d)
			default: // unknown or churned id
				addD(MkReport(uint32(4+r.Intn(5)), slots, p, dv.key.Priv).Serialize())
			}
		}
		var auths []glow.EquipmentAuthorization
		na := r.Intn(5)
		for i := 0; i < na; i++ {
			id := uint32(4 + r.Intn(3))
			ea := g.freshAuth(id, churnKey(id))
			ea.Capacity = []uint64{100, 200}[r.Intn(2)]
			ea.Debt, ea.Expiration, ea.Initialization, ea.ProtocolFee = 1, 2, 3, uint64(r.Intn(2))
			ea.Latitude, ea.Longitude = 1, 2
			signer := s.E.GCA.Priv
			if r.Chance(15) {
				signer = s.E.Temp.Priv
			}
			auths = append(auths, SignAuth(ea, signer))
		}
		// a quarter of the bursts contain the week rotation itself. It is ONE critical section, so it takes
		// effect at one point of the report log: every logged report of the week being archived precedes it
		// (a later one would have been out of the window and left no trace), the others commute with it.
		// No device is created or banned in such a burst (the archived week lists the devices of that instant).
		if withRot {
			auths = nil
		}
		var servers []server.AuthorizedServer
		for i := 0; i < r.Intn(3); i++ {
			k := detKey(seed, 600+nextSrv)
			nextSrv++
			as := server.AuthorizedServer{PublicKey: k.Pub, Banned: r.Chance(30), Location: myIP, HttpPort: closedPortOnce(), TcpPort: uint16(r.Intn(65536)), UdpPort: uint16(r.Intn(65536))}
			signer := s.E.GCA.Priv
			if r.Chance(15) {
				signer = s.E.Temp.Priv
			}
			as.GCAAuthorization = glow.Sign(as.SigningBytes(), signer)
			servers = append(servers, as)
		}
		// migration orders, at most one per reporting device and burst (they commute with everything else in the
		// burst; the sync queries of the burst read the table they write)
		var migs []server.EquipmentMigration
		for _, dv := range reps {
			if !r.Chance(35) {
				continue
			}
			ng := detKey(seed, 700+r.Intn(2))
			em := server.EquipmentMigration{Equipment: dv.key.Pub, NewGCA: ng.Pub, NewShortID: uint32(r.Intn(100))}
			for i := 0; i < r.Intn(3); i++ {
				as := server.AuthorizedServer{PublicKey: detKey(seed, 800+i).Pub, Location: myIP, HttpPort: 1, TcpPort: 2, UdpPort: 3, Banned: r.Chance(20)}
				as.GCAAuthorization = glow.Sign(as.SigningBytes(), ng.Priv)
				em.NewServers = append(em.NewServers, as)
			}
			signer := s.E.GCA.Priv
			if r.Chance(15) {
				signer = s.E.Temp.Priv
			}
			em.Signature = glow.Sign(em.SigningBytes(), signer)
			migs = append(migs, em)
		}
		// ---- oracle rows for everything the model may check (before the burst: keys cannot change inside it)
		snap := s.E.S.VerifSnapshot()
		for _, d := range dgrams {
			if len(d) >= 80 {
				rep, _ := glow.DeserializeReport(d[:80])
				if ea, ok := snap.Equipment[rep.ShortID]; ok {
					s.oracle(ea.PublicKey, rep.SigningBytes(), rep.Signature)
				}
				// a churned id may exist by the time the datagram is replayed on the model
				for id := uint32(4); id <= 6; id++ {
					if rep.ShortID == id {
						s.oracle(churnKey(id).Pub, rep.SigningBytes(), rep.Signature)
					}
				}
			}
		}
		for _, a := range auths {
			s.oracle(snap.GCAKey, a.SigningBytes(), a.Signature)
		}
		for _, as := range servers {
			s.oracle(snap.GCAKey, as.SigningBytes(), as.GCAAuthorization)
		}
		for _, em := range migs {
			s.Keys[em.NewGCA] = true
			s.oracle(snap.GCAKey, em.SigningBytes(), em.Signature)
			for _, a := range em.NewServers {
				a := a
				s.oracle(em.NewGCA, a.SigningBytes(), a.GCAAuthorization)
			}
		}
		repLen0 := fileLen(s.E.Dir + "/equipment-reports.dat")
		authLen0 := fileLen(s.E.Dir + "/equipment-authorizations.dat")
		nsrv0 := len(snap.Servers)
		// ---- fire
		var wg sync.WaitGroup
		var readErrs, reads int64
		var mu sync.Mutex
		startGate := make(chan struct{})
		launch := func(f func()) {
			wg.Add(1)
			go func() { defer wg.Done(); <-startGate; f() }()
		}
		_, _, udp := s.E.S.Ports()
		addr := fmt.Sprintf("127.0.0.1:%d", udp)
		viaUDP := 0
		for _, d := range dgrams {
			d := d
			if r.Chance(25) && len(d) > 0 {
				viaUDP++
				launch(func() { glow.SendUDPReport(d, addr) })
			} else {
				launch(func() { s.E.S.VerifInject(d) })
			}
		}
		for _, a := range auths {
			a := a
			launch(func() { s.E.PostJSON("/api/v1/authorize-equipment", a) })
		}
		for _, as := range servers {
			as := as
			launch(func() { s.E.PostJSON("/api/v1/authorized-servers", as) })
		}
		if withRot {
			launch(func() { s.E.S.VerifMigrateNow() })
		}
		for _, em := range migs {
			em := em
			launch(func() { s.E.PostJSON("/api/v1/equipment-migrate", em) })
		}
		nq := 4 + r.Intn(8)
		for i := 0; i < nq; i++ {
			kind := r.Intn(6)
			dv := reps[r.Intn(len(reps))]
			launch(func() {
				var err error
				switch kind {
				case 0:
					_, _, err = s.E.Get(fmt.Sprintf("/api/v1/all-device-stats?timeslot_offset=%d", off))
				case 1:
					_, err = s.E.SyncRaw(dv.id)
				case 2:
					_, _, err = s.E.Get("/api/v1/recent-reports?publicKey=" + hx(dv.key.Pub[:]))
				case 3:
					_, _, err = s.E.Get("/api/v1/equipment")
				case 4:
					_, _, err = s.E.Get("/api/v1/authorized-servers")
				default:
					_, _, err = s.E.Get("/api/v1/archive")
				}
				mu.Lock()
				reads++
				if err != nil {
					readErrs++
				}
				mu.Unlock()
			})
		}
		rcv := udpReceivedNow()
		close(startGate)
		wg.Wait()
		// datagrams sent through the socket are handled asynchronously: wait for the listener's own counters
		if viaUDP > 0 && !waitUDPQuiet(rcv, int64(viaUDP)) {
			t.Line("# udp datagram lost on loopback; scenario ends")
			s.Lost = true
			break
		}
		// ---- one sequential explanation, from the server's own logs
		raw, _ := os.ReadFile(s.E.Dir + "/equipment-reports.dat")
		done := make([]bool, len(dgrams))
		emitD := func(i int, obs string) {
			done[i] = true
			t.Line("srv.dgram now=%d d=%s => %s", now, hx(dgrams[i]), obs)
		}
		// position of the rotation in the log: right after the last logged report of the archived week
		rotAfter := int64(-1)
		if withRot {
			rotAfter = repLen0 - 80
			for o := repLen0; o+80 <= int64(len(raw)); o += 80 {
				if ts := binary.LittleEndian.Uint32(raw[o+4 : o+8]); ts < off+2016 {
					rotAfter = o
				}
			}
			if rotAfter < repLen0 {
				t.Line("srv.rotate => ok")
			}
		}
		for o := repLen0; o+80 <= int64(len(raw)); o += 80 {
			rec := string(raw[o : o+80])
			found := false
			for i, d := range dgrams {
				if !done[i] && len(d) >= 80 && string(d[:80]) == rec {
					emitD(i, "stored")
					found = true
					break
				}
			}
			if !found {
				t.Line("srv.parcheck what=report-log-has-a-record-nobody-sent => FAILED")
			}
			if withRot && o == rotAfter {
				t.Line("srv.rotate => ok")
			}
		}
		if withRot {
			t.Count("par:rotation-in-burst")
		}
		rawA, _ := os.ReadFile(s.E.Dir + "/equipment-authorizations.dat")
		doneA := make([]bool, len(auths))
		for o := authLen0; o+148 <= int64(len(rawA)); o += 148 {
			rec := string(rawA[o : o+148])
			found := false
			for i, a := range auths {
				if !doneA[i] && string(a.Serialize()) == rec {
					doneA[i] = true
					t.Line("srv.authorize a=%s => ?", hx(a.Serialize()))
					found = true
					break
				}
			}
			if !found {
				t.Line("srv.parcheck what=authorization-log-has-a-record-nobody-sent => FAILED")
			}
		}
		after := s.E.S.VerifSnapshot()
		doneS := make([]bool, len(servers))
		emitS := func(as server.AuthorizedServer) {
			b := 0
			if as.Banned {
				b = 1
			}
			t.Line("srv.authserver e=%s key=%s banned=%d loc=%s http=%d tcp=%d udp=%d sig=%s => ?",
				hx(encodeIfShort(as)), hx(as.PublicKey[:]), b, hx([]byte(as.Location)), as.HttpPort, as.TcpPort, as.UdpPort, hx(as.GCAAuthorization[:]))
		}
		for _, have := range after.Servers[nsrv0:] {
			for i, as := range servers {
				if !doneS[i] && as.PublicKey == have.PublicKey {
					doneS[i] = true
					emitS(as)
				}
			}
		}
		for i := range dgrams {
			if !done[i] {
				emitD(i, "dropped")
			}
		}
		for i, a := range auths {
			if !doneA[i] {
				t.Line("srv.authorize a=%s => ?", hx(a.Serialize()))
			}
		}
		for i, as := range servers {
			if !doneS[i] {
				emitS(as)
			}
		}
		for _, em := range migs {
			var srv []string
			for _, a := range em.NewServers {
				b := 0
				if a.Banned {
					b = 1
				}
				srv = append(srv, fmt.Sprintf("%s,%d,%s,%d,%d,%d,%s", hx(a.PublicKey[:]), b, hx([]byte(a.Location)), a.HttpPort, a.TcpPort, a.UdpPort, hx(a.GCAAuthorization[:])))
			}
			t.Line("srv.migrate eq=%s gca=%s id=%d slist=%s sig=%s => ?", hx(em.Equipment[:]), hx(em.NewGCA[:]), em.NewShortID, strings.Join(srv, ";"), hx(em.Signature[:]))
		}
		t.Stats["par:migrations"] += len(migs)
		obs := "ok"
		if readErrs > 0 {
			obs = fmt.Sprintf("FAILED:%d of %d concurrent queries got no answer", readErrs, reads)
		}
		t.Line("srv.parcheck what=queries n=%d => %s", reads, obs)
		t.Count("par:burst")
		t.Stats["par:dgrams"] += len(dgrams)
		t.Stats["par:auths"] += len(auths)
		t.Stats["par:servers"] += len(servers)
		t.Stats["par:queries"] += int(reads)
		t.Stats["par:stored"] += int((int64(len(raw)) - repLen0) / 80)
		s.Snap()
		used = append(used, dgrams...)
		if len(used) > 200 {
			used = used[len(used)-200:]
		}
		// ---- between bursts: time passes, the window rotates, the server restarts
		switch r.pick([]int{40, 25, 10, 10, 15}) {
		case 0:
			s.SetNow(now + uint32(1+r.Intn(40)))
		case 1:
			s.SetNow(now + uint32(300+r.Intn(900)))
			s.Tick()
		case 2:
			s.Rotate()
		case 3:
			if err := s.Restart(); err != nil {
				t.DumpStats()
				return nil
			}
		default:
		}
	}
	if !s.Lost && s.E.S != nil {
		s.Snap()
		s.Disk()
	}
	t.DumpStats()
	return nil
}

func udpReceivedNow() int64 { return atomic.LoadInt64(&udpReceived) }

// waitUDPQuiet waits until n more datagrams have been read by the listener and every handler it
// launched has finished (hook counters, no timing assumption).
func waitUDPQuiet(r0 int64, n int64) bool {
	for i := 0; i < 5000; i++ {
		rc := atomic.LoadInt64(&udpReceived)
		if rc >= r0+n && atomic.LoadInt64(&udpIter)-iter0 == rc-rcv0+1 && atomic.LoadInt64(&udpHandled) == atomic.LoadInt64(&udpLaunched) {
			return true
		}
		time.Sleep(time.Millisecond)
	}
	return false
}

func init() {
	commands["parscenario"] = func(args []string) int {
		seed, _ := strconv.ParseUint(args[0], 10, 64)
		size, _ := strconv.Atoi(args[1])
		t := NewTrace(os.Stdout)
		if err := runParScenario(seed, size, t); err != nil {
			t.Line("# scenario error: %v", err)
			return 3
		}
		return 0
	}
	commands["par"] = func(args []string) int {
		// par <seedbase> <n> <size> <outfile>
		base, _ := strconv.ParseUint(args[0], 10, 64)
		n, _ := strconv.Atoi(args[1])
		size, _ := strconv.Atoi(args[2])
		f, err := os.Create(args[3])
		if err != nil {
			fmt.Println(err)
			return 2
		}
		defer f.Close()
		c := runMany([]string{"parscenario"}, base, n, 6, size, f)
		fmt.Printf("HARNESS scenarios=%d crashes=%d\n", n, c)
		return 0
	}
}

var _ = binary.LittleEndian
