package main

import (
	"encoding/json"
	"math"

	"github.com/glowlabs-org/gca-backend/glow"
	"github.com/glowlabs-org/gca-backend/server"
)

func float64bits(f float64) uint64 { return math.Float64bits(f) }

// decodeStatsJSON decodes the statistics endpoint's JSON (power outputs are
// served as signed integers).
func decodeStatsJSON(body []byte) (server.AllDeviceStats, error) {
	var raw struct {
		Devices []struct {
			PublicKey    glow.PublicKey
			PowerOutputs []int64
			ImpactRates  []float64
		}
		TimeslotOffset uint32
		Signature      glow.Signature
	}
	var w server.AllDeviceStats
	if err := json.Unmarshal(body, &raw); err != nil {
		return w, err
	}
	w.TimeslotOffset = raw.TimeslotOffset
	w.Signature = raw.Signature
	for _, d := range raw.Devices {
		var ds server.DeviceStats
		ds.PublicKey = d.PublicKey
		for i := 0; i < len(d.PowerOutputs) && i < 2016; i++ {
			ds.PowerOutputs[i] = uint64(d.PowerOutputs[i])
		}
		for i := 0; i < len(d.ImpactRates) && i < 2016; i++ {
			ds.ImpactRates[i] = d.ImpactRates[i]
		}
		w.Devices = append(w.Devices, ds)
	}
	return w, nil
}
